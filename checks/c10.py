"""C10 -- component storage handed out is in bounds, live and correctly aligned."""
import os, re, subprocess
import vlib, proofcheck, emcmp, mgrcheck
from gen import mgr

PROP = 'C10'


def gen_lines(rng, n):
    lines = []
    for _ in range(n):
        cap = rng.pick([1, 2, 3, 4, 5, 8, 16])
        k = rng.range(1, 6)
        toks = []
        for _ in range(k):
            al = rng.pick([1, 2, 4, 8, 16, 32, 64])
            sz = al * rng.pick([0, 1, 1, 2, 3, 5, 8, 4096 // al]) if rng.chance(9, 10) else al * rng.range(0, 4096 // al)
            toks += [str(sz), str(al)]
        if all(int(x) == 0 for x in toks[0::2]):
            toks[0] = toks[1]          # known finding C10/all-components-size-zero: keep at least one component with bytes
        lines.append('lay %d %s' % (cap, ' '.join(toks)))
    return lines


CORPUS = ['lay 4 1 1 64 64', 'lay 4 64 64 1 1', 'lay 3 0 1 8 8 0 64 32 32', 'lay 1 4096 64 4096 1', 'lay 16 1 1 2 2 4 4 8 8 16 16 32 32']


def sanitizer_run(rng, nscripts, only=None):
    """thorough tier: the same entity-manager scripts under AddressSanitizer + UBSan (validation of what no theorem carries)"""
    drv, err = vlib.build_driver('em_driver', variant='asan')
    if err:
        return [('build', err)], 0
    prof = dict(mgr.PROFILE_BASIC)
    prof['pals'] = [0, 1, 2, 3, 4, 5, 6, 7, 12, 13]
    prof['late_reg'] = 60           # component types registered on first use, also while commands are parked in the buffers
    prof['teardown_anywhere'] = True
    prof['weights'] = dict(prof['weights'], lock=10, unlock=7, clone=8, assign=20)
    scripts = only or (SAN_CORPUS + [('a%d' % i, mgr.gen_script(rng.fork('asan%d' % i), 60, prof)) for i in range(nscripts)])
    wd = os.path.join(vlib.BUILD, 'work', PROP)
    os.makedirs(wd, exist_ok=True)
    bad = []
    # contract judged by the specification: run it to know where each script leaves the contract
    runner, _ = vlib.build_runner()
    so, _ = emcmp.run_runner(runner, 'mgrspec', emcmp.scripts_text(scripts))
    spec = dict(emcmp.parse(so))
    for name, lines in scripts:
        p = os.path.join(wd, 'asan.txt')
        open(p, 'w').write(emcmp.scripts_text([(name, lines)]))
        r = subprocess.run([drv, p], stdout=subprocess.PIPE, stderr=subprocess.PIPE, timeout=300,
                           env=dict(os.environ, ASAN_OPTIONS='detect_leaks=0:abort_on_error=1', UBSAN_OPTIONS='print_stacktrace=1'))
        errtxt = r.stderr.decode(errors='replace')
        out = r.stdout.decode(errors='replace')
        if 'AddressSanitizer' in errtxt or 'runtime error' in errtxt or 'CRASH' in out:
            blocks = emcmp.parse(out)[0][1]
            nops = len(blocks)
            sb = spec.get(name, [])
            viol_at = next((i for i, b in enumerate(sb) if b['tags'].get('C') and b['tags']['C'][0].split()[1] != '0'), None)
            if viol_at is not None and viol_at <= nops:
                continue     # the script had left the contract before the report
            m = re.search(r'(ERROR: AddressSanitizer[^\n]*|[^\n]*runtime error[^\n]*)', errtxt)
            bad.append((name, (m.group(1) if m else 'crash') + '\n' + '\n'.join(lines)))
    return bad, len(scripts)


SAN_CORPUS = [
    # a parked assign keeps a pointer to the component's description; later first-use registrations grow the factory's table;
    # the world is destroyed while still locked (fixed defect: the table reallocated, the pointer dangled)
    ('late_registration_teardown_locked', ['maxthreads 16', 'threads 1', 'reg 2', 'reg 0', 'update', 'create 0 0', 'create 0 0', 'lock', 'assign 0 #0 2 5',
                                           'assign 0 #1 1 7', 'assign 0 #1 3 -', 'assign 0 #1 4 1', 'assign 0 #1 5 -', 'assign 0 #1 7 2', 'teardown']),
    ('late_registration_unlock', ['maxthreads 16', 'threads 2', 'reg 3', 'update', 'create 0 3', 'create 0', 'lock', 'assign 0 #1 3 4', 'assign 0 #1 2 5',
                                  'create 0 0 1', 'assign 0 #0 4 -', 'assign 0 #0 5 -', 'assign 0 #0 7 1', 'assign 0 #0 12 3', 'assign 0 #0 13 -', 'unlock', 'clone #0', 'clone #1']),
    # clone at the moments the id / location tables are exactly full (1, 2, 4, 8 entities, nothing recycled)
    ('clone_at_table_capacity', ['maxthreads 16', 'threads 1', 'reg 0', 'reg 4', 'reg 12', 'update', 'create 0 0 4 12', 'set #0 0 11', 'clone #0', 'clone #0', 'clone #1',
                                 'clone #0', 'clone #1', 'clone #0', 'clone #1', 'clone #0', 'clone #1', 'clone #0', 'clone #1', 'clone #0', 'clone #1', 'clone #0', 'clone #1', 'clone #0']),
]


DEFERRED_CORPUS = [
    # a buffer that spills by an odd amount makes the next block's capacity odd: 1-byte + 4096-byte components, twice
    ('odd_block_capacity', ['maxthreads 16', 'threads 1', 'reg 6', 'reg 7', 'reg 0', 'update', 'create 0 0', 'create 0 0', 'create 0 0', 'create 0 0',
                            'lock', 'assign 0 #0 6 -', 'assign 0 #1 7 5', 'unlock', 'lock', 'assign 0 #2 6 -', 'assign 0 #3 7 6', 'unlock']),
    ('mixed_alignments', ['maxthreads 16', 'threads 1', 'reg 6', 'reg 4', 'reg 5', 'reg 7', 'reg 0', 'update'] + ['create 0 0'] * 6 +
     ['lock', 'assign 0 #0 6 -', 'assign 0 #0 4 3', 'assign 0 #1 6 -', 'assign 0 #1 5 -', 'assign 0 #2 7 9', 'assign 0 #3 6 -', 'assign 0 #3 4 1', 'unlock',
      'lock', 'assign 0 #4 6 -', 'assign 0 #4 7 2', 'assign 0 #5 6 -', 'assign 0 #5 5 -', 'unlock']),
]


def parse_Q(block):
    out = {}
    for l in block['tags'].get('Q', []):
        t = l.split()
        f = dict(x.split('=', 1) for x in t[2:])
        chunks = [] if f['chunks'] == '-' else [tuple(int(v) for v in c.split(':')) for c in f['chunks'].split(';')]
        allocs = [] if f['allocs'] == '-' else [tuple(int(v) for v in a.split(':')) for a in f['allocs'].split(';')]
        out[int(t[1])] = dict(target=int(f['target']), total=int(f['total']), chunks=chunks, allocs=allocs)
    return out


def tempstore_replay(runner, impl, scripts):
    """tier B for the command-buffer allocator: every allocation and every clear the library made is replayed through the extracted
    TempStore model FROM THE LIBRARY'S OWN PREVIOUS STATE (blocks, target, total as dumped), with the real base address (mod 4096)
    of each new block; the block / offset handed out and the state afterwards must be the model's"""
    lines, expect = [], []
    def fmt(v):
        return '%d %d %s' % (v['target'], v['total'], ';'.join('%d:%d:%d' % c for c in v['chunks']) or '-')
    for name, blocks in impl:
        prev = {}
        for i, b in enumerate(blocks):
            cur = parse_Q(b)
            # a buffer is not dumped while its allocator is in the initial state (target 4096, nothing allocated, no block):
            # a buffer that was dumped before and is absent now is back in exactly that state
            for t in list(prev):
                if t not in cur and b['tags'].get('V') is not None:
                    cur[t] = dict(target=4096, total=0, chunks=[], allocs=[])
            for t, v in cur.items():
                pv = prev.get(t, dict(target=4096, total=0, chunks=[], allocs=[]))
                if len(v['allocs']) >= len(pv['allocs']) and v['allocs'][:len(pv['allocs'])] == pv['allocs'] and (v['allocs'] != pv['allocs'] or v == pv):
                    new = v['allocs'][len(pv['allocs']):]
                    if new:
                        lines.append('set ' + fmt(pv)); expect.append(None)
                        nch = len(pv['chunks'])
                        for (sz, al, ci, off) in new:
                            base = v['chunks'][ci][0] if 0 <= ci < len(v['chunks']) and ci >= nch else 0
                            nch = max(nch, ci + 1)
                            lines.append('alloc %d %d %d' % (sz, al, base)); expect.append((name, i, b['op'], 'A %d %d' % (ci, off)))
                        lines.append('view'); expect.append((name, i, b['op'], 'V ' + fmt(v)))
                elif not v['allocs']:
                    # the buffer was cleared (outermost unlock)
                    lines.append('set ' + fmt(pv)); expect.append(None)
                    lines.append('clear'); expect.append(None)
                    lines.append('view'); expect.append((name, i, b['op'], 'V ' + fmt(v)))
                # anything else: allocations and a clear inside one operation (a job run): not reconstructible, skipped
            prev.update(cur)
    if not lines:
        return [], 0
    import subprocess
    out = subprocess.run([runner, 'tempstore'], input=('\n'.join(lines) + '\n').encode(), stdout=subprocess.PIPE, timeout=600).stdout.decode().split('\n')
    div = []
    for j, (e, o) in enumerate(zip(expect, out)):
        if e is not None and e[3] != o.strip():
            lo = max(0, j - 6)
            ctx = ' | '.join('%s -> %s' % (lines[k], out[k].strip()) for k in range(lo, j + 1))
            div.append(dict(script=e[0], opn=e[1], op=e[2], impl=e[3], model=o.strip() + '\n  replayed: ' + ctx))
    return div, sum(1 for e in expect if e is not None and e[3].startswith('A '))


def deferred_storage_run(rng, n):
    prof = mgr.profile('C05')
    prof['pals'] = [0, 4, 5, 6, 7, 8]
    prof['dynflags'] = [0, 63]
    prof['weights'] = dict(prof['weights'], lock=14, unlock=7, assign=30, create=18, remove=4, destroynow=6, build=0, recycle=0, createremove=0)
    scripts = DEFERRED_CORPUS + [('d%d' % i, mgr.gen_script(rng.fork('c10d-%d' % i), 70, prof)) for i in range(n)]
    rn = mgrcheck.Runner(PROP)
    if rn.err:
        return dict(what='build error: %s' % rn.err, opn=0, op='', script='', lines=[]), 0, [], 0
    # plus ordinary histories with clear() / clearArchetype() and refills: no crash inside the contract (dead slots, stale counts)
    prof2 = dict(mgr.PROFILE_BASIC)
    prof2['weights'] = dict(prof2['weights'], clear=4, cleararch=6, destroynow=14, create=30, lock=3, unlock=5)
    scripts += [('h%d' % i, mgr.gen_script(rng.fork('c10h-%d' % i), 70, prof2)) for i in range(n)]
    impl, model, spec = rn.run(scripts, tag='deferred')
    res = mgrcheck.tier_a(impl, spec, scripts, {'tmpaddr'})
    res = [r for r in res if r['aspect'] in ('tmpaddr', 'crash')]
    if res:
        r = res[0]
        r['lines'] = dict(scripts)[r['script']][:r['opn'] + 1]
        return r, len(scripts), [], 0
    runner, _ = vlib.build_runner()
    tdiv, tn = tempstore_replay(runner, impl, scripts)
    for d_ in tdiv:
        d_['lines'] = dict(scripts)[d_['script']]
    return None, len(scripts), tdiv, tn


def run(tier, seed, replay=None):
    rng = vlib.Rng(seed)
    pr = proofcheck.prove(PROP)
    n = 200 if tier == 'quick' else 3000
    lines = [l.strip() for l in open(replay) if l.startswith('lay')] if replay else CORPUS + gen_lines(rng, n)
    cov = {'obligations': pr['obligations'], 'discharged': pr['discharged'], 'theorems': pr['theorems'],
           'checker_cmd': 'make -C coq Properties_C10.vo; layout_driver vs extracted Layout; world_driver default-context worlds; em_driver under ASan+UBSan',
           'trusted_base': vlib.TRUSTED_BASE_COMMON}
    drv, err = vlib.build_driver('layout_driver')
    wdrv, err2 = vlib.build_driver('world_driver')
    runner, rerr = vlib.build_runner()
    if err or err2 or rerr:
        p = vlib.write_replay(PROP, 'build_error.txt', str(err or err2 or rerr))
        return {'violations': [(p, 'no-failing-input-found')], 'coverage': cov, 'level': 'proof'}
    text = '==== layouts\n' + '\n'.join(lines) + '\n'
    wd = os.path.join(vlib.BUILD, 'work', PROP)
    io, _ = emcmp.run_driver(drv, text, wd)
    mo, _ = emcmp.run_runner(runner, 'layout', text)
    impl, model = emcmp.parse(io), emcmp.parse(mo)
    fa = []
    for name, blocks in impl:
        for b in blocks:
            a = (b['tags'].get('A') or ['A missing'])[0]
            if b['crash'] or a != 'A ok':
                fa.append((b['op'], b['crash'] or a[2:]))
    # every way of constructing a world: the default (empty) context and the explicit one
    wtxt = emcmp.scripts_text([('contexts', ['newdefault', 'create 0', 'lockcreate 0', 'new', 'create 1', 'newshared', 'newshared', 'create 2', 'create 3', 'update 0', 'del 0', 'newdefault', 'create 4'])])
    wo, _ = emcmp.run_driver(wdrv, wtxt, wd, tag='worlds')
    for name, blocks in emcmp.parse(wo):
        for b in blocks:
            if b['crash']:
                fa.append(('world construction: ' + b['op'], b['crash']))
    div = emcmp.compare(impl, model, ['L'])
    known = []
    for kf in vlib.known_findings(PROP):
        if kf.get('status') == 'open':
            wl = [l.strip() for l in open(os.path.join(vlib.VERIF, kf['witness'])) if l.startswith('lay')]
            ko, _ = emcmp.run_driver(drv, '==== w\n' + '\n'.join(wl) + '\n', wd, tag='witness')
            if any(b['crash'] or (b['tags'].get('A') or ['A missing'])[0] != 'A ok' for n_, bl in emcmp.parse(ko) for b in bl):
                known.append('%s: %s' % (kf['key'], kf['what']))
    # storage handed out by deferred assigns (the command-buffer allocator): aligned, inside one block, disjoint
    em_fail, em_n, ts_div, ts_n = (None, 0, [], 0)
    if not replay:
        em_fail, em_n, ts_div, ts_n = deferred_storage_run(rng, 60 if tier == 'quick' else 600)
    san_bad, san_n = ([], 0)
    if not replay:
        san_bad, san_n = sanitizer_run(rng, 30 if tier == 'quick' else 300)
    elif not lines:
        # replay of a sanitizer report: the script below its first line, under ASan+UBSan again
        san_bad, san_n = sanitizer_run(rng, 0, only=[('replay', [l.rstrip('\n') for l in open(replay) if l.strip() and not l.startswith('#')])])
    cov.update({'evaluations': len(lines) + san_n, 'distinct_nontrivial': len(set(lines)), 'sanitizer_scripts': san_n,
                'rule': 'random component sets (1-6 components, sizes 0..4096, power-of-two alignments 1..64, capacities 1..16); distinct input lines',
                'tierA_failures': len(fa) + len(san_bad), 'tierB_divergences': len(div), 'samples': lines[:5]})
    cov['deferred_storage_scripts'] = em_n
    cov['tempstore_allocations_replayed'] = ts_n
    cov['tempstore_divergences'] = len(ts_div)
    violations = []
    if em_fail:
        p = vlib.write_replay(PROP, 'failing_script.txt', '# %s\n# at op %d (%s) of script %s\n%s\n' % (em_fail['what'], em_fail['opn'], em_fail['op'], em_fail['script'], '\n'.join(em_fail['lines'])))
        violations.append((p, ''))
    elif fa:
        op, what = fa[0]
        p = vlib.write_replay(PROP, 'failing_input.txt', '# %s\n%s\n' % (what, op))
        violations.append((p, ''))
    elif san_bad:
        p = vlib.write_replay(PROP, 'sanitizer_report.txt', '# %s\n' % san_bad[0][1])
        violations.append((p, ''))
    elif not pr['ok'] or div or ts_div:
        what = ['proof obligation broken: ' + x for x in pr['failed']]
        if ts_div:
            d = ts_div[0]
            what.append('correspondence TempStore model vs the command-buffer allocator diverges: script %s op %d (%s)\n  impl : %s\n  model: %s' % (d['script'], d['opn'], d['op'], d['impl'], d['model']) + '\nscript:\n' + '\n'.join(d.get('lines', [])))
        if div:
            d = div[0]
            what.append('correspondence Layout model vs implementation diverges on: %s\n  impl : %s\n  model: %s' % (d['op'], d['impl'], d['model']))
        p = vlib.write_replay(PROP, 'broken_obligation.txt', '\n'.join(what) + '\n')
        violations.append((p, 'no-failing-input-found'))
    return {'violations': violations, 'known': known, 'coverage': cov, 'level': 'proof',
            'assumptions': ['sizeof is a multiple of alignof; alignments are powers of two; offsets do not overflow 32 bits',
                            'the allocator returns memory aligned as requested (aligned_alloc)',
                            'use-after-free / uninitialised reads / language-level UB are not provable in the model: validated by ASan+UBSan runs of generated histories (more in the thorough tier)']}
