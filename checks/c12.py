"""C12 -- shared components: one instance per distinct value, never lost by other edits."""
import vlib, mgrcheck
from gen import mgr

PROP = 'C12'
ASPECTS = {'shared', 'valid', 'values', 'members'}


def run(tier, seed, replay=None):
    rng = vlib.Rng(seed)
    n, maxops = (220, 60) if tier == 'quick' else (3000, 250)
    prof = mgr.profile(PROP)
    scripts = mgr.corpus(PROP) + [('g%d' % i, mgr.gen_script(rng.fork(PROP + '-%d' % i), maxops, prof)) for i in range(n)]
    return mgrcheck.run_check(PROP, scripts, ASPECTS, replay=replay, assumptions=['component payloads are modelled as one integer per instance', 'locked-mode API calls from different threads are atomic with respect to each other (call-granularity interleavings; premise validated by the TSan run of C06)'])
