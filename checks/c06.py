"""C06 -- parallel jobs split work disjointly, complete before run() returns, race-free."""
import os, re, subprocess
import vlib, proofcheck, emcmp, mgrcheck, jobcheck
from gen import mgr
from checks import c08

PROP = 'C06'


def job_scripts(rng, n, maxops):
    prof = mgr.profile('C04')
    prof['threads'] = [1, 2, 3, 4, 7, 15]
    prof['jobs'] = [{'reqs': [(0, 1)], 'check': []}, {'reqs': [(0, 0), (1, 3)], 'check': []}, {'reqs': [(0, 1), (2, 1)], 'check': []},
                    {'reqs': [(0, 1)], 'check': [0]}, {'reqs': [(0, 0), (1, 3)], 'check': [0]}]
    prof['weights'] = dict(prof['weights'], runjob=30, lock=4, unlock=6, assign=10, create=28, sparse=5, jobdo=0, jobedit=0)    # callbacks with structural calls are driven in current-thread runs only (C04/C07/C18): the driver names the handles they create without a lock
    out = []
    for i in range(n):
        lines = mgr.gen_script(rng.fork('c06-%d' % i), maxops, prof)
        # force parallel mode with task counts 1..N+1
        lines = [re.sub(r'^runjob (\d+) 0$', lambda m: 'runjob %s 1 %d' % (m.group(1), rng.range(1, 9)), l) for l in lines]
        out.append(('j%d' % i, lines))
    return out


def tsan_run(rng):
    """thorough tier: the premise of the models (no data race in the library's bookkeeping) under ThreadSanitizer"""
    reports = []
    n = 0
    for drvname, scripts in (('disp_driver', c08.CORPUS + [('t%d' % i, c08.gen_scenario(rng.fork('ts%d' % i), 8)) for i in range(40)]),
                             ('em_driver', job_scripts(rng, 40, 60) + [('w%d' % i, mgr.gen_script(rng.fork('tsw%d' % i), 60, mgr.profile('C05'))) for i in range(40)])):
        drv, err = vlib.build_driver(drvname, variant='tsan')
        if err:
            return [('build', 'TSan build of %s failed:\n%s' % (drvname, err[:3000]))], n
        wd = os.path.join(vlib.BUILD, 'work', PROP)
        os.makedirs(wd, exist_ok=True)
        for name, lines in scripts:
            p = os.path.join(wd, 'tsan.txt')
            open(p, 'w').write(emcmp.scripts_text([(name, lines)]))
            r = subprocess.run([drv, p], stdout=subprocess.PIPE, stderr=subprocess.PIPE, timeout=600,
                               env=dict(os.environ, TSAN_OPTIONS='halt_on_error=0 second_deadlock_stack=1'))
            n += 1
            err_txt = r.stderr.decode(errors='replace')
            for rep in re.findall(r'WARNING: ThreadSanitizer: data race.*?(?=\n==================|\Z)', err_txt, re.S):
                if 'mustache::' in rep:
                    frames = re.findall(r'#\d+ (mustache::[^\s(]+)', rep)
                    reports.append((name, 'data race in %s\n%s\nscript:\n%s' % (' / '.join(frames[:4]), rep[:1500], '\n'.join(lines))))
    return reports, n


def bookkeeping_stress(tier, scripts=None):
    """real concurrency on the manager's shared bookkeeping: tasks that use a component combination for the first time"""
    drv, err = vlib.build_driver('em_driver')
    if err:
        return None, {}
    rounds = 120 if tier == 'quick' else 400
    scripts = scripts or [('pn%d' % t, ['maxthreads %d' % mgr.MAXTHREADS, 'threads %d' % t, 'update', 'pcreatenew %d 3' % rounds, 'pregister %d' % (rounds * 3)]) for t in (2, 4, 8)]
    io, _ = emcmp.run_driver(drv, emcmp.scripts_text(scripts), os.path.join(vlib.BUILD, 'work', PROP + '-pn'), timeout=1200)
    created = 0
    for name, blocks in emcmp.parse(io):
        for b in blocks:
            if b['crash']:
                return (name, 'implementation crashed: ' + b['crash'], dict(scripts)[name]), {}
            r = (b['tags'].get('R') or ['R'])[0]
            if 'pregister' in r:
                kv = dict(re.findall(r'(\w+)=(\d+)', r))
                if int(kv['split']):
                    return (name, 'tasks registering one new component description at the same time: in %s round(s) they were told different ids for it' % kv['split'], dict(scripts)[name]), {}
            if 'pcreatenew' in r:
                kv = dict(re.findall(r'(\w+)=(\d+)', r))
                created += int(kv.get('created', 0))
                if int(kv['dup_arch']) or int(kv['miscount']) or int(kv['invalid']):
                    return (name, 'tasks creating entities of a new component combination at the same time: %s round(s) ended with more or fewer than one archetype for it, %s with a wrong member count, %s handles not alive'
                            % (kv['dup_arch'], kv['miscount'], kv['invalid']), dict(scripts)[name]), {}
    return None, {'first_use_stress': {'scripts': len(scripts), 'entities_created': created, 'workers': [2, 4, 8]}}


def run(tier, seed, replay=None):
    rng = vlib.Rng(seed)
    rl = [l.rstrip('\n') for l in open(replay) if l.strip() and not l.startswith('#')] if replay else []
    only_pn = any(l.startswith('pcreatenew') or l.startswith('pregister') for l in rl)
    bad, pn_cov = bookkeeping_stress(tier, [('replay', rl)] if only_pn else None) if (only_pn or not replay) else (None, {})
    if bad or only_pn:
        if not bad:
            return {'violations': [], 'coverage': dict(pn_cov, rule='replay of a first-use stress script', evaluations=1, distinct_nontrivial=1), 'level': 'proof'}
        p = vlib.write_replay(PROP, 'failing_script.txt', '# %s\n# script %s (a race: repeat the run if it passes once)\n%s\n' % (bad[1], bad[0], '\n'.join(bad[2])))
        return {'violations': [(p, '')], 'coverage': {'rule': 'first-use stress failed before the script comparison ran', 'evaluations': 3, 'distinct_nontrivial': 3}, 'level': 'proof'}
    pr = proofcheck.prove(PROP)
    n, maxops = (80, 60) if tier == 'quick' else (1200, 200)
    if replay:
        scripts = [(os.path.basename(replay), [l.rstrip('\n') for l in open(replay) if l.strip() and not l.startswith('#')])]
    else:
        scripts = job_scripts(rng, n, maxops)
    res = mgrcheck.run_check(PROP, scripts, {'valid', 'values', 'members'}, replay=replay,
                             extra_tier_a=lambda impl, sc: jobcheck.tier_a_jobs(impl, sc, {'visits'}),
                             assumptions=['user code writes only the components it is handed',
                                          'data-race freedom is not provable in the model: it is the premise of the models, checked by ThreadSanitizer in the thorough tier',
                                          'locked-mode API calls are atomic with respect to each other (call granularity)'])
    res['coverage'].update(pn_cov)
    if res['violations'] or replay:
        return res
    # (b) completion before return: recorded dispatcher traces replayed through the LTS
    drv, err = vlib.build_driver('disp_driver')
    runner, _ = vlib.build_runner()
    dscripts = c08.CORPUS + [('g%d' % i, c08.gen_scenario(rng.fork('c06d%d' % i), 8)) for i in range(20 if tier == 'quick' else 300)]
    io, _ = emcmp.run_driver(drv, emcmp.scripts_text(dscripts), os.path.join(vlib.BUILD, 'work', PROP), tag='disp', timeout=3000)
    impl = emcmp.parse(io)
    fa = c08.tier_a(impl)
    badtr, ntr = c08.validate_traces(runner, impl, dscripts)
    res['coverage']['traces_validated_against_impl'] = ntr
    res['coverage']['barrier_failures'] = len(fa)
    sd = dict(dscripts)
    if fa:
        f = fa[0]
        p = vlib.write_replay(PROP, 'failing_scenario.txt', '# %s\n# at op %d (%s)\n%s\n' % (f['what'], f['opn'], f['op'], '\n'.join(sd[f['script']])))
        res['violations'].append((p, ''))
    elif badtr:
        name, r, ln = badtr[0]
        p = vlib.write_replay(PROP, 'broken_obligation.txt', 'a recorded dispatcher trace (%d events) is not a run of the model: %s\nscenario:\n%s\n' % (ln, r, '\n'.join(sd[name])))
        res['violations'].append((p, 'no-failing-input-found'))
    elif tier == 'thorough':
        reps, nts = tsan_run(rng)
        res['coverage']['tsan_scripts'] = nts
        res['coverage']['tsan_reports'] = len(reps)
        if reps:
            p = vlib.write_replay(PROP, 'tsan_report.txt', reps[0][1] + '\n')
            res['violations'].append((p, ''))
    return res
