"""C18 -- the C API behaves like the C++ API on the same operations (three-way: C driver, C++ driver, model)."""
import os
import vlib, proofcheck, emcmp, mgrcheck, jobcheck

PROP = 'C18'


def gen_script(rng, nops):
    pals = [8, 9, 10, 11]
    order = pals[:]
    for i in range(3, 0, -1):
        j = rng.below(i + 1); order[i], order[j] = order[j], order[i]
    lines = ['maxthreads 16', 'threads 1']
    for p in order:
        lines.append('reg %d %d' % (p, rng.below(64)))       # every subset of the optional functions, default value on/off
    lines.append('update')
    njobs = 0
    jobs_meta = []
    for _ in range(rng.range(0, 3)):
        k = rng.range(0, 2)         # also jobs that require nothing: the entity alone, or optional components only -- they visit every entity
        reqs = []
        for p in sorted(set(rng.pick(pals) for _ in range(k))):
            reqs.append('%d:%d' % (p, rng.below(4)))
        if reqs and not any(int(r.split(':')[1]) & 2 == 0 for r in reqs) and rng.chance(1, 2):
            reqs[0] = reqs[0].split(':')[0] + ':1'
        chk = [r.split(':')[0] for r in reqs if rng.chance(1, 3)]
        lines.append('mkjob 1 %s%s' % (' '.join(reqs), (' c ' + ' '.join(chk)) if chk else ''))
        jobs_meta.append((set(int(r.split(':')[0]) for r in reqs if int(r.split(':')[1]) & 2 == 0), bool(chk)))
        njobs += 1
    n = 0
    comps = {}
    marked = set()
    for _ in range(nops):
        live = sorted(comps)
        c = rng.weighted([('createarch', 26), ('assignid', 16 if live else 0), ('removeid', 10 if live else 0), ('set', 12 if live else 0),
                          ('getconst', 6 if n else 0), ('has', 5 if n else 0), ('destroynow', 8 if live else 0), ('destroy', 4 if live else 0),
                          ('update', 6), ('runjob', 18 if njobs else 0), ('jobdo', 8 if njobs else 0)])
        if c == 'jobdo':
            # a C job whose callback creates an entity from an archetype and assigns another component to it (both deferred)
            ok = [j for j, (need, chk_) in enumerate(jobs_meta) if not chk_ and any(need <= comps[h] for h in live if h not in marked)]
            if ok:
                j = rng.pick(ok)
                cs = sorted(set(rng.pick(pals) for _ in range(rng.range(1, 2))))
                lines.append('jobdo createarch 0 ' + ' '.join(map(str, cs)))
                comps[n] = set(cs)
                cand = [p for p in pals if p not in comps[n]]
                if cand and rng.chance(2, 3):
                    p = rng.pick(cand)
                    lines.append('jobdo assignid 0 #%d %d %s' % (n, p, rng.pick(['-', str(rng.range(1, 900))])))
                    comps[n].add(p)
                if rng.chance(1, 3):
                    # ... and destroys it again before the job ends: created and destroyed in one callback
                    lines.append('jobdo destroynow 0 #%d' % n)
                    comps.pop(n, None)
                n += 1
                lines.append('runjob %d 0' % j)
            continue
        if c == 'createarch':
            cs = sorted(set(rng.pick(pals) for _ in range(rng.range(0, 3))))
            lines.append(('createarch 0 ' + ' '.join(map(str, cs))).rstrip()); comps[n] = set(cs); n += 1
        elif c == 'assignid':
            h = rng.pick(live); cand = [p for p in pals if p not in comps[h]]
            if cand:
                p = rng.pick(cand); lines.append('assignid 0 #%d %d %s' % (h, p, rng.pick(['-', str(rng.range(1, 900))]))); comps[h].add(p)
        elif c == 'removeid':
            h = rng.pick(live)
            if comps[h]:
                p = rng.pick(sorted(comps[h])); lines.append('removeid 0 #%d %d' % (h, p)); comps[h].discard(p)
        elif c == 'set':
            h = rng.pick(live)
            if comps[h]:
                lines.append('set #%d %d %d' % (h, rng.pick(sorted(comps[h])), rng.range(1, 900)))
        elif c in ('getconst', 'has'):
            lines.append('%s #%d %d' % (c, rng.below(n), rng.pick(pals)))
        elif c == 'destroynow':
            h = rng.pick(live); lines.append('destroynow 0 #%d' % h); comps.pop(h)
        elif c == 'destroy':
            h = rng.pick(live); lines.append('destroy 0 #%d' % h); marked.add(h)
        elif c == 'update':
            lines.append('update')
            for h in marked:
                comps.pop(h, None)
            marked = set()
        elif c == 'runjob':
            lines.append('runjob %d 0' % rng.below(njobs))
    lines.append('update')
    return lines


def norm_R(l):
    t = l.split()
    if len(t) > 1 and (t[1].startswith('last=') or t[1] == 'visits'):
        return 'R job ' + ' '.join(t[2:])
    if len(t) > 1 and t[1].startswith('#'):
        return 'R ' + t[1]
    return l.rstrip()


def norm_H_lines(blocks):
    for n_, bl in blocks:
        for b in bl:
            b['tags']['H'] = [l for l in b['tags'].get('H', []) if ' m=- ' not in l and not l.endswith(' - -')]
    return blocks


def run(tier, seed, replay=None):
    rng = vlib.Rng(seed)
    pr = proofcheck.prove(PROP)
    n, nops = (250, 50) if tier == 'quick' else (4000, 200)
    if replay:
        scripts = [(os.path.basename(replay), [l.rstrip('\n') for l in open(replay) if l.strip() and not l.startswith('#')])]
    else:
        scripts = [('g%d' % i, gen_script(rng.fork('c%d' % i), nops)) for i in range(n)]
        # a C job that writes an OPTIONAL component, and a version-checked reader of that component
        scripts.append(('optional_writer_then_checked_reader', ['maxthreads 16', 'threads 1', 'reg 8 0', 'reg 9 0', 'update', 'mkjob 1 8:1 9:2', 'mkjob 1 9:1 c 9',
                                                                'createarch 0 8 9', 'createarch 0 8 9', 'createarch 0 8', 'createarch 0 8 9', 'runjob 1 0', 'runjob 0 0', 'runjob 1 0',
                                                                'update', 'runjob 1 0', 'set #0 9 5', 'runjob 0 0', 'runjob 1 0']))
        scripts.append(('pod_swap_remove', ['maxthreads 16', 'threads 1', 'reg 8 0', 'reg 9 0', 'update', 'createarch 0 8 9', 'createarch 0 8 9', 'createarch 0 8 9',
                                            'set #0 8 101', 'set #1 8 102', 'set #2 8 103', 'set #0 9 201', 'set #1 9 202', 'set #2 9 203', 'destroynow 0 #0',
                                            'getconst #2 8', 'getconst #2 9', 'mkjob 1 8:1 9:0', 'runjob 0 0']))
    cov = {'obligations': pr['obligations'], 'discharged': pr['discharged'], 'theorems': pr['theorems'],
           'checker_cmd': 'make -C coq Properties_C18.vo; capi_driver (C interface only) vs em_driver (C++ interface) vs extracted Manager',
           'trusted_base': vlib.TRUSTED_BASE_COMMON}
    cdrv, err = vlib.build_driver('capi_driver', with_capi=True)
    drv, err2 = vlib.build_driver('em_driver')
    runner, rerr = vlib.build_runner()
    if err or err2 or rerr:
        p = vlib.write_replay(PROP, 'build_error.txt', str(err or err2 or rerr))
        return {'violations': [(p, 'no-failing-input-found')], 'coverage': cov, 'level': 'proof'}
    text = emcmp.scripts_text(scripts)
    wd = os.path.join(vlib.BUILD, 'work', PROP)
    co, _ = emcmp.run_driver(cdrv, text, wd, tag='c')
    io, _ = emcmp.run_driver(drv, text, wd, tag='cpp')
    mo, _ = emcmp.run_runner(runner, 'mgr', text)
    capi, cpp, model = norm_H_lines(emcmp.parse(co)), norm_H_lines(emcmp.parse(io)), norm_H_lines(emcmp.parse(mo))
    nrm = {'R': norm_R}
    fa = emcmp.compare(capi, cpp, ['R', 'H', 'D'], extra_norm=nrm)          # the property itself: C interface vs C++ interface (D: calls of the lifecycle functions by kind)
    div = emcmp.compare(capi, model, ['R', 'H'], extra_norm=nrm)
    # bytes nobody wrote (a described component without create function and default value) are indeterminate: the model prints
    # them as '*'.  A C / C++ difference in such a cell is not a difference of behaviour: keep only those the model does not explain
    div_cpp = emcmp.compare(cpp, model, ['R', 'H'], extra_norm=nrm)
    unexplained = set((d['script'], d['opn'], d['tag']) for d in div + div_cpp)
    fa = [f for f in fa if f['tag'] == 'D' or (f['script'], f['opn'], f['tag']) in unexplained]
    sd = dict(scripts)
    finals = set('\n'.join(b[-1]['tags'].get('H', [])) for n_, b in capi if b)
    cov.update({'evaluations': len(scripts), 'distinct_nontrivial': len(finals), 'ops': sum(len(v) for v in sd.values()),
                'rule': 'random scripts in the C-expressible alphabet over 4 run-time described components with every subset of optional functions; distinct = distinct final component tables seen through the C interface',
                'tierA_failures': len(fa), 'tierB_divergences': len(div), 'samples': [scripts[0][1][:30]]})
    # a component described with a create function corresponds to a C++ type with a constructor: wherever an instance comes
    # into being without a value (assign, creation from an archetype, a dependency, immediately or through a command buffer) it
    # is the create function's result (1000 + palette number), never the bytes of the default value (2000 + palette number)
    for name_, blocks_ in capi:
        flags_ = dict((int(t[1]), int(t[2])) for t in (l.split() for l in sd.get(name_, [])) if t and t[0] == 'reg' and len(t) > 2)
        for i_, b_ in enumerate(blocks_):
            hv_ = jobcheck.parse_Hvals(b_)
            bad_ = None
            for pal_, fl_ in flags_.items():
                if fl_ & 33:
                    # ... and an instance of a type with a create function or a default value is never left as it was found: scripts
                    # write values 1..900 only, so a 0 (fresh storage) can only be an instance nobody initialised
                    for cid_ in jobcheck.pal_cids(sd[name_], blocks_, pal_):
                        for h_, comps_ in hv_.items():
                            if comps_.get(cid_) == '0' and not bad_:
                                bad_ = (h_, cid_, pal_, 'zero')
                if fl_ & 1 and fl_ & 32:
                    for cid_ in jobcheck.pal_cids(sd[name_], blocks_, pal_):
                        for h_, comps_ in hv_.items():
                            if comps_.get(cid_) == str(2000 + pal_):
                                bad_ = (h_, cid_, pal_)
            if bad_ and len(bad_) == 4:
                fa = fa + [dict(script=name_, opn=i_, op=b_['op'], tag='H', impl='entity %s component %d reads 0: the instance was never initialised' % (bad_[0], bad_[1]),
                                model='a type with a create function or a default value is initialised whenever an instance comes into being (%d or %d)' % (1000 + bad_[2], 2000 + bad_[2]))]
                break
            if bad_:
                fa = fa + [dict(script=name_, opn=i_, op=b_['op'], tag='H', impl='entity %s component %d holds %d, the bytes of the default value' % (bad_[0], bad_[1], 2000 + bad_[2]),
                                model='a type with a create function (a C++ type with a constructor) is initialised by it: %d' % (1000 + bad_[2]))]
                break
    violations = []
    # what a C++ PerEntityJob hands its callback (each selected entity once, its own values, null for an optional component the entity
    # lacks), judged on the C interface's job runs
    ja = jobcheck.tier_a_jobs(capi, scripts, {'visits', 'nomiss'}, no_layout=True)
    cov['tierA_job_failures'] = len(ja)
    if ja and not fa:
        f = ja[0]
        p = vlib.write_replay(PROP, 'failing_script.txt', '# %s: %s\n# at op %d (%s), through the C interface\n%s\n' %
                              (f['aspect'], f['what'], f['opn'], f['op'], '\n'.join(sd[f['script']][:f['opn'] + 1])))
        violations.append((p, ''))
    elif fa:
        f = fa[0]
        p = vlib.write_replay(PROP, 'failing_script.txt', '# op %d (%s) tag %s\n#   through the C interface  : %s\n#   through the C++ interface: %s\n%s\n' %
                              (f['opn'], f['op'], f['tag'], f['impl'], f['model'], '\n'.join(sd[f['script']][:f['opn'] + 1])))
        violations.append((p, ''))
    elif not pr['ok'] or div:
        what = ['proof obligation broken: ' + x for x in pr['failed']]
        if div:
            d = div[0]
            what.append('correspondence model vs C interface diverges: script %s op %d (%s) tag %s\n  C    : %s\n  model: %s\nscript:\n%s' %
                        (d['script'], d['opn'], d['op'], d['tag'], d['impl'], d['model'], '\n'.join(sd[d['script']])))
        p = vlib.write_replay(PROP, 'broken_obligation.txt', '\n'.join(what) + '\n')
        violations.append((p, 'no-failing-input-found'))
    return {'violations': violations, 'known': [], 'coverage': cov, 'level': 'proof',
            'assumptions': ['component payloads are 8-byte integers', 'the C interface has no validity query: liveness is observed through hasComponent/getComponent',
                            'systems cannot be driven through the C interface alone (it has no init): the configuration conversion is covered by a theorem and by C14']}
